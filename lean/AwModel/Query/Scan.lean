import AwModel.Query.Chars
/-!
# The six `check` scanners of `aw_query/query2.py` and `_parse_token`

Model of the REPAIRED parser (DESIGN.md §9 F10/F11): the bracket scanners return the remainder
`string[i:]`, `_parse_token` strips before the emptiness test, `QInteger.check` tests ASCII digits.
Every `check` returns `(token, remainder)`; a falsy token (`None` or `""`) is `[]`. Unguarded
indexing (`string[0]`) is a `py indexError` outcome.
-/
namespace Aw.Query

/-- Python exceptions outside the query-error family -/
inductive PyExc where
  | indexError | valueError | attributeError | typeError
deriving Repr, DecidableEq

inductive Err where
  | parse (msg : String)      -- QueryParseException
  | interp (msg : String)     -- QueryInterpretException
  | func (msg : String)       -- QueryFunctionException
  | py (kind : PyExc)         -- any other Python exception
  | fuel                      -- the model's recursion budget ran out (proved unreachable)
deriving Repr, DecidableEq

/-- the token classes, in the order of `qtypes` -/
inductive Ty where | str | int | func | dict | list | var
deriving Repr, DecidableEq

/-- `QString.check` loop: the characters appended to `token` after the opening quote -/
def strBody (q : Char) : Option Char → Str → Str
  | _, [] => []
  | prev, c :: cs =>
    if c = q ∧ prev ≠ some '\\' then [c] else c :: strBody q (some c) cs

/-- `QString.check` -/
def checkString (s : Str) : Except Err (Str × Str) :=
  match s with
  | [] => .error (.py .indexError)                 -- string[0]
  | q :: rest =>
    if q ≠ '"' ∧ q ≠ '\'' then .ok ([], s)
    else
      let tok := q :: strBody q none rest
      if tok.getLast? ≠ some q ∨ tok.length < 2 then .error (.parse "Failed to parse string")
      else .ok (tok, s.drop tok.length)

/-- `QInteger.check` -/
def checkInt (s : Str) : Str × Str :=
  let tok := s.takeWhile isDigit
  (tok, s.drop tok.length)

/-- number of leading identifier characters (`QVariable.check` loop) -/
def identLen : Nat → Str → Nat
  | _, [] => 0
  | i, c :: cs => if isIdent i c then 1 + identLen (i + 1) cs else 0

/-- `QVariable.check` -/
def checkVar (s : Str) : Str × Str :=
  let n := identLen 0 s
  (s.take n, s.drop n)

/-- state of the bracket-matching loop shared by `QFunction/QDict/QList.check` -/
structure BrSt where
  depth : Nat
  sq : Bool
  dq : Bool
  prev : Option Char
deriving Repr, DecidableEq

/-- one iteration of the loop body (`o`,`c` = the bracket pair this scanner counts).
    (`QFunction.check` has one more branch, `elif i != 0 and char.isdigit(): pass`, before the
    bracket tests; a digit is neither bracket, so it is the same no-op as the final `else`.) -/
def brStep (o c : Char) (st : BrSt) (ch : Char) : BrSt :=
  let st' : BrSt :=
    if ch = '\'' ∧ st.prev ≠ some '\\' ∧ st.dq = false then { st with sq := !st.sq }
    else if ch = '"' ∧ st.prev ≠ some '\\' ∧ st.sq = false then { st with dq := !st.dq }
    else if st.sq = true ∨ st.dq = true then st
    else if ch = c then { st with depth := st.depth - 1 }
    else if ch = o then { st with depth := st.depth + 1 }
    else st
  { st' with prev := some ch }

/-- `for char in string[i:]: i += 1; …; if to_consume == 0: break; prev_char = char`;
    returns (i, to_consume) -/
def brScan (o c : Char) : BrSt → Str → Nat → Nat × Nat
  | st, [], i => (i, st.depth)
  | st, ch :: rest, i =>
    let st' := brStep o c st ch
    if st'.depth = 0 then (i + 1, 0) else brScan o c st' rest (i + 1)

def brInit : BrSt := ⟨1, false, false, none⟩

/-- `QDict.check` / `QList.check` (no balance test in the source); repaired remainder `string[i:]` -/
def checkBr (o c : Char) (s : Str) : Except Err (Str × Str) :=
  match s with
  | [] => .error (.py .indexError)                 -- string[0]
  | h :: rest =>
    if h ≠ o then .ok ([], s)
    else
      let i := (brScan o c brInit rest 1).1
      .ok (s.take i, s.drop i)

/-- first loop of `QFunction.check`: index just after the "(" that follows identifier chars -/
def funcHead : Nat → Str → Option Nat
  | _, [] => none
  | i, c :: cs =>
    if isIdent i c then funcHead (i + 1) cs
    else if c = '(' then some (i + 1) else none

/-- `QFunction.check`; repaired remainder `string[i:]` -/
def checkFunc (s : Str) : Str × Str :=
  match funcHead 0 s with
  | none => ([], s)
  | some i0 =>
    let r := brScan '(' ')' brInit (s.drop i0) i0
    if r.2 ≠ 0 then ([], s) else (s.take r.1, s.drop r.1)

abbrev Checker := Str → Except Err (Str × Str)

/-- `qtypes` with their `check` methods -/
def checkers : List (Ty × Checker) :=
  [ (.str,  checkString),
    (.int,  fun s => .ok (checkInt s)),
    (.func, fun s => .ok (checkFunc s)),
    (.dict, checkBr '{' '}'),
    (.list, checkBr '[' ']'),
    (.var,  fun s => .ok (checkVar s)) ]

/-- `for t in qtypes: token, string = t.check(string); if token: break` followed by
    `if not token: raise QueryParseException` -/
def firstMatch (s : Str) : List (Ty × Checker) → Except Err (Option (Ty × Str) × Str)
  | [] => .error (.parse "Syntax error")
  | (ty, f) :: rest =>
    match f s with
    | .error e => .error e
    | .ok (tok, r) => if tok ≠ [] then .ok (some (ty, tok), r) else firstMatch r rest

/-- `_parse_token` (repaired: strip before the emptiness test); `none` is `(None, "")` -/
def parseToken (s0 : Str) : Except Err (Option (Ty × Str) × Str) :=
  let s := strip s0
  if s = [] then .ok (none, s) else firstMatch s checkers

end Aw.Query
