import AwModel.Query.Parse
import AwModel.Query.Sig
/-!
# Token `interpret` methods, the call protocol of `aw_query/functions.py`, and `query()`

Builtin bodies are a parameter `apply : Str → List Val → Except Err Val` (it receives exactly the
argument tuple the body `f(*args)` would receive, datastore / namespace included as `Val.ds` /
`Val.ns`). The registry is a parameter too; checks instantiate it with the generated
`Registry.registry`. `apply` is pure: a builtin that mutated the namespace it is handed is outside
the model (none of the pinned builtins does; C12 is about that).
-/
namespace Aw.Query

abbrev Apply := Str → List Val → Except Err Val

/-- `isinstance(v, t)` for `t` in `list, str, int, float` (`bool` is a subclass of `int`) -/
def typeOk : PKind → Val → Bool
  | .list, .list _ => true
  | .list, .sym k _ _ => k = 'l'
  | .str, .str _ => true
  | .str, .sym k _ _ => k = 's'
  | .int, .int _ => true
  | .int, .bool _ => true
  | .int, .sym k _ _ => k = 'i'
  | .float, .sym k _ _ => k = 'f'
  | _, _ => false

/-- `param.annotation in [list, str, int, float]` -/
def PKind.checked : PKind → Bool
  | .other => false
  | _ => true

/-- loop of `q2_typecheck.g` (repaired: `and i < len(args)`) -/
def typecheck : List Param → List Val → Except Err Unit
  | p :: ps, a :: as =>
    if p.kind.checked ∧ p.required ∧ typeOk p.kind a = false then
      .error (.func "Variable passed to function call is of invalid type")
    else typecheck ps as
  | _, _ => .ok ()

/-- `q2_function.g`: prepend datastore and namespace, then remove what the signature lacks -/
def inject (e : Entry) (args : List Val) : List Val :=
  let a := if e.takesNs then Val.ds :: Val.ns :: args else Val.ds :: args
  if e.takesDs then a else a.drop 1

/-- does the Python signature bind `n` positional arguments -/
def Entry.accepts (e : Entry) (n : Nat) : Bool :=
  e.minArgs ≤ n && (match e.maxArgs with | some m => n ≤ m | none => true)

/-- `functions[name](datastore, namespace, *args)` -/
def callEntry (apply : Apply) (e : Entry) (args : List Val) : Except Err Val :=
  let a := inject e args
  match (if e.typechecked then typecheck e.params a else .ok ()) with
  | .error err => .error err
  | .ok () =>
    if e.accepts a.length then apply e.name a
    else .error (.py .typeError)                   -- `f(*args)` cannot bind

/-- the `try: … except TypeError: raise QueryInterpretException` of `QFunction.interpret` -/
def catchTypeError (r : Except Err Val) : Except Err Val :=
  match r with
  | .error (.py .typeError) =>
    .error (.interp "Tried to call function with invalid amount of arguments")
  | r => r

def callBuiltin (apply : Apply) (e : Entry) (args : List Val) : Except Err Val :=
  catchTypeError (callEntry apply e args)

mutual
/-- `token.interpret(datastore, namespace)`; the namespace is threaded because
    `QVariable.interpret` writes it -/
def interp (reg : List Entry) (apply : Apply) : Tok → Ns → Except Err (Val × Ns)
  | .int n, ns => .ok (.int n, ns)
  | .str s, ns => .ok (.str s, ns)
  | .var name cap, ns =>
    if ns.has name = false then .error (.interp "Tried to reference variable which is not defined")
    else
      -- `namespace[self.name] = self.value; return self.value` (`None` when nothing was captured)
      let v := cap.getD .none
      .ok (v, ns.set name v)
  | .call f args, ns =>
    match lookupEntry reg f with
    | none => .error (.interp "Tried to call function which doesn't exist")
    | some e =>
      match interpList reg apply args ns with
      | .error err => .error err
      | .ok (vs, ns') => (callBuiltin apply e vs).map (fun v => (v, ns'))
  | .list xs, ns => (interpList reg apply xs ns).map (fun p => (.list p.1, p.2))
  | .dict kvs, ns => (interpDict reg apply kvs ns).map (fun p => (.dict p.1, p.2))
def interpList (reg : List Entry) (apply : Apply) : List Tok → Ns → Except Err (List Val × Ns)
  | [], ns => .ok ([], ns)
  | t :: ts, ns =>
    match interp reg apply t ns with
    | .error err => .error err
    | .ok (v, ns1) => (interpList reg apply ts ns1).map (fun p => (v :: p.1, p.2))
def interpDict (reg : List Entry) (apply : Apply) :
    List (Str × Tok) → Ns → Except Err (List (Str × Val) × Ns)
  | [], ns => .ok ([], ns)
  | (k, t) :: ts, ns =>
    match interp reg apply t ns with
    | .error err => .error err
    | .ok (v, ns1) => (interpDict reg apply ts ns1).map (fun p => ((k, v) :: p.1, p.2))
end

/-- the statement loop of `query()` -/
def runStmts (reg : List Entry) (apply : Apply) : List Str → Ns → Except Err Ns
  | [], ns => .ok ns
  | st :: rest, ns =>
    match parseStmt ns st with
    | .error e => .error e
    | .ok (name, tok) =>
      match interp reg apply tok ns with
      | .error e => .error e
      | .ok (v, ns1) => runStmts reg apply rest (ns1.set name v)

def strOf (s : String) : Str := s.toList

/-- `create_namespace()` -/
def baseNs : Ns :=
  [(['T','r','u','e'], .bool true), (['F','a','l','s','e'], .bool false),
   (['t','r','u','e'], .bool true), (['f','a','l','s','e'], .bool false)]

def returnName : Str := ['R','E','T','U','R','N']

/-- `query(name, text, starttime, endtime, datastore)` with `env` = the NAME/STARTTIME/ENDTIME
    bindings -/
def runQuery (reg : List Entry) (apply : Apply) (env : Ns) (text : Str) : Except Err Val :=
  match runStmts reg apply (statements text) (baseNs ++ env) with
  | .error e => .error e
  | .ok ns =>
    match ns.get? returnName with
    | none => .error (.parse "Query doesn't assign the RETURN variable, nothing to respond")
    | some v => .ok v

end Aw.Query
