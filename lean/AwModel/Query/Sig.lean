import AwModel.Query.Chars
/-!
# Shape of the query-function registry (`aw_query.functions.functions`)

`RegistryGen.lean` (generated from the source by `harness/registry_dump.py` on every run) is a
list of `Entry`.
-/
namespace Aw.Query

/-- what `q2_typecheck` looks at: `param.annotation in [list, str, int, float]` -/
inductive PKind where | list | str | int | float | other
deriving Repr, DecidableEq

structure Param where
  kind : PKind
  /-- `param.default == param.empty` -/
  required : Bool
deriving Repr, DecidableEq

structure Entry where
  name : Str
  /-- positional parameters of the registered function, in order (incl. datastore/namespace) -/
  params : List Param
  /-- some parameter is annotated `Datastore` (else `q2_function` drops the datastore argument) -/
  takesDs : Bool
  /-- some parameter is annotated `TNamespace` -/
  takesNs : Bool
  /-- wrapped by `q2_typecheck` -/
  typechecked : Bool
  /-- fewest / most positional arguments the Python signature binds (`none` = `*args`) -/
  minArgs : Nat
  maxArgs : Option Nat
deriving Repr, DecidableEq

def lookupEntry (reg : List Entry) (name : Str) : Option Entry := reg.find? (fun e => e.name = name)

end Aw.Query
