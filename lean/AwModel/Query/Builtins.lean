import AwModel.Query.Interp
import AwModel.Store.Sqlite
import AwModel.Store.Memory
import AwModel.Store.Peewee
/-!
# The three builtins of `aw_query/functions.py` that receive the datastore

`q2_find_bucket`, `q2_query_bucket` and `q2_query_bucket_eventcount` are the only registered
functions with a `Datastore` parameter (`C12.only_three_builtins_take_the_datastore` decides that on
the generated registry). Their bodies use the datastore through four calls only:

* `datastore.buckets()` (the listing: `bucketname in …`, `for bucket in …`, and the test inside
  `Datastore.__getitem__`),
* `datastore[b].metadata()` (`get_metadata`),
* `datastore[b].get(starttime=…, endtime=…)` = `Bucket.get` with `limit = -1`, which rounds the
  window (`roundWin`) and calls the storage layer's `get_events`,
* `datastore[b].get_eventcount(starttime=…, endtime=…)`, which passes the window on UNROUNDED.

`Reads D` is exactly that interface, as functions; the builtins below are functions of a `Reads D`
and of nothing else of the backend. There is no store in their result types: a builtin cannot hand
back a changed store. `Reads.ofSqlite` / `ofMemory` / `ofPeewee` build the interface from the three
backend models.

The namespace reaches a builtin of the interpreter model as the opaque token `Val.ns`, so the
query window is a parameter here: `S`/`E` are the instants that `namespace["STARTTIME"]` /
`namespace["ENDTIME"]` denote at the call (integer microseconds; an unparsable string raises
`QueryFunctionException` before the datastore is touched and is not modelled). A program that
rebinds these names moves its own window (DESIGN.md §8 C12, guard).

Core Lean only.
-/
namespace Aw.Query
open Aw

variable {D : Type}

/-! ## `Bucket.get`'s rounding (restated from `Driver/Store.lean`; `AwProofs` proves it equal to
`Aw.Store.roundWin`) -/

/-- floor to the millisecond (instants are integer microseconds) -/
def floorMs (t : Int) : Int := t - t % 1000

/-- `Bucket.get`: start floored to ms; end floored to ms plus one ms -/
def roundWin (st en : Option Int) : Option Int × Option Int :=
  (st.map floorMs, en.map (fun e => floorMs e + 1000))

/-! ## the read interface -/

/-- what the datastore-taking builtins can call -/
structure Reads (D : Type) where
  /-- `datastore.buckets()`: the bucket ids in the order the backend lists them -/
  buckets : List String
  /-- the storage layer's `get_events(bucket, limit, starttime, endtime)` (window as received,
      i.e. already rounded by `Bucket.get`) -/
  get : String → Int → Option Int → Option Int → Except Store.Err (List (Ev D))
  /-- the storage layer's `get_eventcount(bucket, starttime, endtime)` -/
  count : String → Option Int → Option Int → Except Store.Err Nat
  /-- `get_metadata(bucket)["hostname"]`; `none` = `get_metadata` raises -/
  hostname : String → Option String

def hostnameOf (m : Except Store.Err Store.Meta) : Option String :=
  match m with
  | .ok m => some m.hostname
  | .error _ => none

/-- sqlite: the reads never raise (a missing bucket reads as empty) -/
def Reads.ofSqlite (s : Store.Sqlite.St D) : Reads D where
  buckets := (Store.Sqlite.bucketsOf s).map (·.1)
  get b limit st en := .ok (Store.Sqlite.getEvents s b limit st en)
  count b st en := .ok (Store.Sqlite.getEventcount s b st en)
  hostname b := hostnameOf (Store.Sqlite.getMetadata s b)

def Reads.ofMemory (s : Store.Memory.St D) : Reads D where
  buckets := (Store.Memory.bucketsOf s).map (·.1)
  get b limit st en := Store.Memory.getEvents s b limit st en
  count b st en := Store.Memory.getEventcount s b st en
  hostname b := hostnameOf (Store.Memory.getMetadata s b)

/-- peewee; `dec` is the row decoder of `Peewee.getEvents` (identity, or the duration codec) -/
def Reads.ofPeewee (s : Store.Peewee.St D) (dec : Ev D → Ev D := id) : Reads D where
  buckets := (Store.Peewee.bucketsOf s).map (·.1)
  get b limit st en := Store.Peewee.getEvents s b limit st en dec
  count b st en := Store.Peewee.getEventcount s b st en
  hostname b := hostnameOf (Store.Peewee.getMetadata s b)

/-! ## the builtin bodies -/

/-- how a datastore-taking builtin can fail -/
inductive BErr where
  /-- `QueryFunctionException` raised by the builtin itself -/
  | func (msg : String)
  /-- an exception of the storage layer, propagated unchanged -/
  | store (e : Store.Err)
deriving DecidableEq, Repr

/-- a storage-layer result inside a builtin: its exception propagates -/
def BErr.lift {α : Type} : Except Store.Err α → Except BErr α
  | .ok a => .ok a
  | .error e => .error (.store e)

/-- the message of `_verify_bucket_exists` -/
def noBucketMsg (b : String) : String := "There's no bucket named '" ++ b ++ "'"

/-- `_verify_bucket_exists` -/
def verifyBucketExists (r : Reads D) (b : String) : Except BErr Unit :=
  if b ∈ r.buckets then .ok () else .error (.func (noBucketMsg b))

/-- `q2_query_bucket`: `datastore[b].get(starttime=S, endtime=E)` -/
def queryBucket (r : Reads D) (b : String) (S E : Int) : Except BErr (List (Ev D)) :=
  match verifyBucketExists r b with
  | .error e => .error e
  | .ok () =>
    BErr.lift (r.get b (-1) (roundWin (some S) (some E)).1 (roundWin (some S) (some E)).2)

/-- `q2_query_bucket_eventcount`: `datastore[b].get_eventcount(starttime=S, endtime=E)` -/
def queryBucketEventcount (r : Reads D) (b : String) (S E : Int) : Except BErr Nat :=
  match verifyBucketExists r b with
  | .error e => .error e
  | .ok () =>
    BErr.lift (r.count b (some S) (some E))

/-- `pat in s` on strings -/
def isInfixB (pat : List Char) : List Char → Bool
  | [] => pat.isEmpty
  | c :: cs => pat.isPrefixOf (c :: cs) || isInfixB pat cs

/-- Python truthiness of the optional `hostname` argument (`None` and `""` are falsy) -/
def truthyHost : Option String → Option String
  | some h => if h = "" then none else some h
  | none => none

/-- the loop of `q2_find_bucket` over the listing: the metadata is fetched for every bucket whose id
    contains `filterStr` (a failure there propagates), then the hostname filter decides -/
def findBucketLoop (r : Reads D) (filterStr : String) (hostname : Option String) :
    List String → Except BErr String
  | [] => .error (.func ("Unable to find bucket matching '" ++ filterStr ++ "'"))
  | b :: rest =>
    if isInfixB filterStr.toList b.toList then
      match r.hostname b with
      -- `get_metadata` raised (ValueError on sqlite/memory; cannot happen for a listed bucket:
      -- `AwProofs` `hostname_listed_*`)
      | none => .error (.store .valueError)
      | some hn =>
        match truthyHost hostname with
        | some h => if hn = h then .ok b else findBucketLoop r filterStr hostname rest
        | none => .ok b
    else findBucketLoop r filterStr hostname rest

/-- `q2_find_bucket(datastore, filter_str, hostname=None)` -/
def findBucket (r : Reads D) (filterStr : String) (hostname : Option String) : Except BErr String :=
  findBucketLoop r filterStr hostname r.buckets

/-! ## as builtin bodies of the interpreter (`Apply`) -/

/-- how events and storage exceptions appear among query values / query errors -/
structure Enc (D : Type) where
  ev : Ev D → Val
  storeErr : Store.Err → Err

def Enc.err (enc : Enc D) : BErr → Err
  | .func m => .func m
  | .store e => enc.storeErr e

def nameFindBucket : Str := ['f','i','n','d','_','b','u','c','k','e','t']
def nameQueryBucket : Str := ['q','u','e','r','y','_','b','u','c','k','e','t']
def nameQueryBucketEventcount : Str :=
  ['q','u','e','r','y','_','b','u','c','k','e','t','_','e','v','e','n','t','c','o','u','n','t']

/-- the builtin bodies: the three datastore-taking ones from `r` and the window `S`, `E`, every
    other name (and every argument shape the three do not model: a `str`-kinded symbolic value as
    bucket name, a hostname that is neither a string nor `None`) from `other`. The argument tuples
    are the ones `inject` builds: `(datastore, filter_str[, hostname])` and
    `(datastore, namespace, bucketname)`. -/
def dsApply (r : Reads D) (enc : Enc D) (S E : Int) (other : Apply) : Apply := fun name args =>
  if name = nameQueryBucket then
    match args with
    | [.ds, .ns, .str b] =>
      match queryBucket r (String.ofList b) S E with
      | .ok es => .ok (.list (es.map enc.ev))
      | .error e => .error (enc.err e)
    | _ => other name args
  else if name = nameQueryBucketEventcount then
    match args with
    | [.ds, .ns, .str b] =>
      match queryBucketEventcount r (String.ofList b) S E with
      | .ok n => .ok (.int n)
      | .error e => .error (enc.err e)
    | _ => other name args
  else if name = nameFindBucket then
    match args with
    | [.ds, .str f] =>
      match findBucket r (String.ofList f) none with
      | .ok b => .ok (.str b.toList)
      | .error e => .error (enc.err e)
    | [.ds, .str f, .none] =>
      match findBucket r (String.ofList f) none with
      | .ok b => .ok (.str b.toList)
      | .error e => .error (enc.err e)
    | [.ds, .str f, .str h] =>
      match findBucket r (String.ofList f) (some (String.ofList h)) with
      | .ok b => .ok (.str b.toList)
      | .error e => .error (enc.err e)
    | _ => other name args
  else other name args

end Aw.Query
