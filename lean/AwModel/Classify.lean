import AwModel.Basic
/-!
# aw_transform/classify.py, split_url_events.py, simplify.py

Event data is an insertion-ordered association list (a Python `dict` with string keys).
Values are `JVal`: a string, a list of strings (what `categorize`/`tag` write), or anything else
(opaque canonical JSON text; never a string, so never searched).

External behaviour is a *parameter* of the model:
* `Search` — `re.compile(pattern, (IGNORECASE if ic else 0) | UNICODE).search(subject) is not None`
* `UrlParse` — `urllib.parse.urlparse(url)` as six strings, `none` when it raises `ValueError`
* `Subs` — the three `Pattern.sub` calls of `simplify_string`, in the order the source applies them

The functions follow the source branch for branch. `categorize`, `tag` and `split_url_events`
annotate the event objects they are given and return those same objects (so afterwards the
caller's events equal the returned ones: `…InputsAfter`); `simplify_string` works on a deep copy
(the caller's events are untouched).
-/
namespace Aw.Classify
open Aw

/-- JSON value as far as these transforms can tell values apart -/
inductive JVal where
  | str (s : String)
  | strs (l : List String)
  | other (text : String)
deriving Repr, DecidableEq, Inhabited

abbrev Data := List (String × JVal)
abbrev Event := Ev Data

/-- exceptions that can leave `split_url_events` / `simplify_string` -/
inductive PyErr where
  | keyError | typeError | valueError | attributeError
deriving Repr, DecidableEq, Inhabited

/-- `d.get(k)` / `d[k]` (first binding; a dict has one) -/
def get : Data → String → Option JVal
  | [], _ => none
  | (k', v) :: r, k => if k' = k then some v else get r k

/-- `k in d` -/
def has (d : Data) (k : String) : Bool := (get d k).isSome

/-- `d[k] = v`: an existing key keeps its position, a new key goes to the end -/
def set : Data → String → JVal → Data
  | [], k, v => [(k, v)]
  | (k', v') :: r, k, v => if k' = k then (k, v) :: r else (k', v') :: set r k v

/-! ## classify.py -/

/-- pattern text, ignore-case flag, subject -/
abbrev Search := String → Bool → String → Bool

/-- a constructed `Rule`: `regex` is the compiled pattern (its text) or `None` -/
structure Rule where
  regex : Option String
  ignoreCase : Bool
  selectKeys : Option (List String)
deriving Repr, DecidableEq, Inhabited

/-- `Rule.__init__` on `{"regex": rx, "ignore_case": ic, "select_keys": sk}` (absent = `none`):
    `re.compile(...) if regex_str else None` — an empty pattern text is dropped.
    (`re.compile` raising on an invalid pattern happens before any transform runs: precondition.) -/
def Rule.ofDict (rx : Option String) (ic : Bool) (sk : Option (List String)) : Rule :=
  { regex := match rx with
      | none => none
      | some s => if s = "" then none else some s
    ignoreCase := ic
    selectKeys := sk }

/-- `values` of `Rule.match`: `if self.select_keys:` is false for `None` and for `[]` -/
def Rule.values (r : Rule) (d : Data) : List (Option JVal) :=
  match r.selectKeys with
  | some (k :: ks) => (k :: ks).map (fun key => get d key)
  | _ => d.map (fun kv => some kv.2)

/-- `for val in values: if isinstance(val, str) and self.regex.search(val): return True` -/
def anyStrMatch (m : Search) (p : String) (ic : Bool) : List (Option JVal) → Bool
  | [] => false
  | some (JVal.str s) :: r => if m p ic s then true else anyStrMatch m p ic r
  | _ :: r => anyStrMatch m p ic r

/-- `Rule.match(e)` -/
def Rule.match (m : Search) (r : Rule) (e : Event) : Bool :=
  let values := r.values e.data
  match r.regex with
  | some p => anyStrMatch m p r.ignoreCase values
  | none => false

/-- `[_cls for _cls, rule in classes if rule.match(e)]` -/
def matching {α : Type} (m : Search) (classes : List (α × Rule)) (e : Event) : List α :=
  classes.filterMap (fun c => if c.2.match m e then some c.1 else none)

/-- `_pick_deepest_cat(t1, t2)` -/
def pickDeepest (t1 t2 : List String) : List String :=
  if t2.length ≥ t1.length then t2 else t1

/-- `_pick_category(tags) = reduce(_pick_deepest_cat, tags, ["Uncategorized"])` -/
def pickCategory (tags : List (List String)) : List String :=
  tags.foldl pickDeepest ["Uncategorized"]

/-- `_categorize_one` -/
def categorizeOne (m : Search) (classes : List (List String × Rule)) (e : Event) : Event :=
  { e with data := set e.data "$category" (JVal.strs (pickCategory (matching m classes e))) }

/-- `categorize(events, classes)` (returned list) -/
def categorize (m : Search) (classes : List (List String × Rule)) (events : List Event) : List Event :=
  events.map (categorizeOne m classes)

/-- `_tag_one` -/
def tagOne (m : Search) (classes : List (String × Rule)) (e : Event) : Event :=
  { e with data := set e.data "$tags" (JVal.strs (matching m classes e)) }

/-- `tag(events, classes)` (returned list) -/
def tag (m : Search) (classes : List (String × Rule)) (events : List Event) : List Event :=
  events.map (tagOne m classes)

/-- the caller's event objects after `categorize` (distinct objects): annotated in place -/
def categorizeInputsAfter (m : Search) (classes : List (List String × Rule)) (events : List Event) :=
  categorize m classes events

/-- the caller's event objects after `tag` -/
def tagInputsAfter (m : Search) (classes : List (String × Rule)) (events : List Event) :=
  tag m classes events

/-! ## loops that can raise -/

/-- `for x in l: … f(x) …` where `f` may raise: first error wins -/
def mapE {α β ε : Type} (f : α → Except ε β) : List α → Except ε (List β)
  | [] => .ok []
  | a :: r =>
    match f a with
    | .error x => .error x
    | .ok b =>
      match mapE f r with
      | .error x => .error x
      | .ok bs => .ok (b :: bs)

/-! ## split_url_events.py -/

structure UrlParts where
  scheme : String
  netloc : String
  path : String
  params : String
  query : String
  fragment : String
deriving Repr, DecidableEq, Inhabited

/-- `urlparse(url)` on a string; `none` = raises `ValueError` -/
abbrev UrlParse := String → Option UrlParts

/-- `netloc[4:] if netloc[:4] == "www." else netloc` (slices count code points) -/
def stripWww (netloc : String) : String :=
  if netloc.toList.take 4 = ['w', 'w', 'w', '.'] then String.ofList (netloc.toList.drop 4) else netloc

/-- loop body of `split_url_events`. A non-string `url` value is outside the function's domain
    (CPython's `urlparse` then raises `AttributeError` or returns bytes fields, depending on the
    value's truthiness); the model reports it as `attributeError`. -/
def splitOne (up : UrlParse) (e : Event) : Except PyErr Event :=
  match get e.data "url" with
  | none => .ok e
  | some (JVal.str url) =>
    match up url with
    | none => .error .valueError
    | some p =>
      let d := set e.data "$protocol" (.str p.scheme)
      let d := set d "$domain" (.str (stripWww p.netloc))
      let d := set d "$path" (.str p.path)
      let d := set d "$params" (.str p.params)
      let d := set d "$options" (.str p.query)
      let d := set d "$identifier" (.str p.fragment)
      .ok { e with data := d }
  | some _ => .error .attributeError

/-- `split_url_events(events)` (returned list = the caller's list object) -/
def splitUrlEvents (up : UrlParse) (events : List Event) : Except PyErr (List Event) :=
  mapE (splitOne up) events

/-! ## simplify.py -/

/-- the three substitutions in the order the source applies them to a window title:
    `re_parensprefix.sub("", ·)`, `re_fps.sub("FPS: ...", ·)`, `re_leadingdot.sub("", ·)` -/
structure Subs where
  parens : String → String
  fps : String → String
  dot : String → String

/-- `e.data[key] = pattern.sub(repl, e.data[key])`: `KeyError` when the key is missing,
    `TypeError` when the value is not a string -/
def subAt (f : String → String) (d : Data) (key : String) : Except PyErr Data :=
  match get d key with
  | none => .error .keyError
  | some (JVal.str v) => .ok (set d key (.str (f v)))
  | some _ => .error .typeError

/-- loop body of `simplify_string` on the (copied) event -/
def simplifyOne (sb : Subs) (key : String) (e : Event) : Except PyErr Event :=
  match subAt sb.parens e.data key with
  | .error x => .error x
  | .ok d1 =>
    if key = "title" ∧ has d1 "app" then
      match subAt sb.fps d1 key with
      | .error x => .error x
      | .ok d2 =>
        match subAt sb.dot d2 key with
        | .error x => .error x
        | .ok d3 => .ok { e with data := d3 }
    else .ok { e with data := d1 }

/-- `simplify_string(events, key)` (returned list; a deep copy of the input is what is modified) -/
def simplifyString (sb : Subs) (key : String) (events : List Event) : Except PyErr (List Event) :=
  mapE (simplifyOne sb key) events

/-- the caller's events after `simplify_string`: untouched (`deepcopy` first) -/
def simplifyInputsAfter (_sb : Subs) (_key : String) (events : List Event) : List Event := events

end Aw.Classify
