import AwModel.Basic
import AwModel.Float64
/-!
# aw_core/models.py — `_timestamp_parse`, `Event.__init__`, the setters, `to_json_dict`

Follows the source statement for statement. What is *not* modelled (DESIGN §4): the text syntax of
timestamps. A `datetime` is its wall-clock reading as microseconds since 1970-01-01T00:00:00 on
its own clock (`loc`) plus its `utcoffset()` in microseconds (`none` for a naive datetime); the
harness converts real datetimes / ISO-8601 strings to that pair with integer arithmetic, so
`iso8601.parse_date` and `datetime.isoformat` are stated parameters ("the string denotes this
pair"). Everything the module itself computes is here: the float expression
`int(ts.microsecond / 1000) * 1000`, `replace`, the tz default, `astimezone(utc)`, the duration
setter with `timedelta(seconds=·)` in double arithmetic, `total_seconds()`, `Event(**json)`.
-/
namespace Aw.Event
open Aw Aw.Fl

/-- exceptions that can leave `Event(...)` -/
inductive PyErr
  | typeError      -- duration of a type that is neither timedelta nor Real; unknown keyword
  | overflowError  -- timedelta(seconds=·) outside ±999999999 days
  | unmodelled     -- `timestamp=None` reads the wall clock: outside the model
deriving Repr, DecidableEq

/-- a `datetime` value: wall-clock µs since the epoch of its own clock, and utcoffset in µs -/
structure DT where
  loc : Int
  off : Option Int
deriving Repr, DecidableEq

/-- an aware `datetime` -/
structure Aware where
  loc : Int
  off : Int
deriving Repr, DecidableEq

def Aware.toDT (a : Aware) : DT := ⟨a.loc, some a.off⟩

/-- `ts.microsecond` -/
def microsecond (loc : Int) : Int := loc % 1000000

/-- `ts.replace(microsecond=m)` on the wall-clock reading (`0 ≤ m < 10⁶`, else Python raises
    `ValueError`; `AwProofs.C13.ms_floor_float` shows the value passed is always in range) -/
def replaceMicrosecond (loc m : Int) : Int := loc - microsecond loc + m

/-- `int(us / 1000) * 1000`: true division of two ints (correctly rounded double), truncation,
    integer product -/
def msTrunc (us : Int) : Int := trunc (fdiv us 1000) * 1000

/-- `_timestamp_parse` after the `iso8601.parse_date` step -/
def tsParse (d : DT) : Aware :=
  let loc := replaceMicrosecond d.loc (msTrunc (microsecond d.loc))
  match d.off with
  | none => ⟨loc, 0⟩        -- `if not ts.tzinfo: ts = ts.replace(tzinfo=timezone.utc)`
  | some o => ⟨loc, o⟩

/-- `.astimezone(timezone.utc)` of an aware datetime: same instant, offset 0 -/
def astimezoneUtc (a : Aware) : Aware := ⟨a.loc - a.off, 0⟩

/-- the `timestamp` setter: `self["timestamp"] = _timestamp_parse(timestamp).astimezone(utc)` -/
def setTimestamp (d : DT) : Aware := astimezoneUtc (tsParse d)

/-- `__init__`: `self.timestamp = _timestamp_parse(timestamp)` — the parse runs in `__init__` and
    again in the setter -/
def initTimestamp (d : DT) : Aware := setTimestamp (tsParse d).toDT

/-- what can be given as `duration` -/
inductive DurIn
  | td (us : Int)      -- a timedelta (µs)
  | int (n : Int)      -- an int number of seconds
  | float (r : Rat)    -- a finite double number of seconds (its exact value)
  | other              -- anything else (str, None, ...)
deriving Repr

def tdMinUs : Int := -999999999 * 86400 * 1000000
def tdMaxUs : Int := 1000000000 * 86400 * 1000000 - 1

/-- `timedelta(...)` normalisation check: `|days| ≤ 999999999` -/
def mkTimedelta (us : Int) : Except PyErr Int :=
  if tdMinUs ≤ us ∧ us ≤ tdMaxUs then .ok us else .error .overflowError

/-- the `duration` setter -/
def setDuration : DurIn → Except PyErr Int
  | .td d => .ok d                               -- isinstance(duration, timedelta)
  | .int n => mkTimedelta (n * 1000000)          -- numbers.Real, int: exact
  | .float r => mkTimedelta (tdOfSeconds r)      -- numbers.Real, float
  | .other => .error .typeError

variable {D : Type}

/-- `data or {}` (`emp` is the empty dict; a falsy dict *is* the empty dict) -/
def dataOr (emp : D) : Option D → D
  | none => emp
  | some d => d

/-- `Event(id, timestamp, duration, data)` with a timestamp given -/
def mk (emp : D) (id : Option Int) (ts : DT) (dur : DurIn) (data : Option D) :
    Except PyErr (Ev D) := do
  let t := initTimestamp ts
  let d ← setDuration dur
  pure { id := id, ts := t.loc, dur := d, data := dataOr emp data }

/-! ## JSON form -/

/-- the JSON values that occur in an event's JSON form -/
inductive JV (D : Type)
  | null
  | int (i : Int)
  | num (r : Rat)        -- a float
  | str (d : DT)         -- a date-time string, represented by the datetime it denotes
  | obj (d : D)
deriving Repr

/-- `to_json_dict()` (key order of the underlying dict: id, timestamp, duration, data) -/
def toJson (e : Ev D) : List (String × JV D) :=
  [ ("id", match e.id with | none => .null | some i => .int i),
    -- self.timestamp.astimezone(timezone.utc).isoformat()
    ("timestamp", .str (astimezoneUtc ⟨e.ts, 0⟩).toDT),
    -- self.duration.total_seconds()
    ("duration", .num (totalSeconds e.dur)),
    ("data", .obj e.data) ]

def lookup (k : String) : List (String × JV D) → Option (JV D)
  | [] => none
  | (k', v) :: r => if k' = k then some v else lookup k r

/-! the three constraints of `aw_core/schemas/event.json` (draft-04): `timestamp` required and a
    string (format date-time), `duration` a number if present, `data` an object if present -/
def isStr : Option (JV D) → Bool
  | some (.str _) => true
  | _ => false

def isNumOrAbsent : Option (JV D) → Bool
  | none => true
  | some (.num _) => true
  | some (.int _) => true
  | _ => false

def isObjOrAbsent : Option (JV D) → Bool
  | none => true
  | some (.obj _) => true
  | _ => false

def schemaOk (j : List (String × JV D)) : Bool :=
  isStr (lookup "timestamp" j) && isNumOrAbsent (lookup "duration" j) &&
    isObjOrAbsent (lookup "data" j)

/-- `Event(**json.loads(text))` -/
def ofJson (emp : D) (j : List (String × JV D)) : Except PyErr (Ev D) :=
  if j.all (fun kv => ["id", "timestamp", "duration", "data"].contains kv.1) then
    match lookup "timestamp" j with
    | some (.str d) =>
      let id : Option Int := match lookup "id" j with | some (.int i) => some i | _ => none
      let dur : DurIn := match lookup "duration" j with
        | none => .int 0            -- default `duration=0`
        | some (.num r) => .float r
        | some (.int n) => .int n
        | _ => .other
      let data : Option D := match lookup "data" j with | some (.obj d) => some d | _ => none
      mk emp id d dur data
    | _ => .error .unmodelled
  else .error .typeError

/-- `Event(**e)` for an event `e`: the dict entries are passed as they are -/
def copy (emp : D) (e : Ev D) : Except PyErr (Ev D) :=
  mk emp e.id ⟨e.ts, some 0⟩ (.td e.dur) (some e.data)

/-- `Event.__eq__`: timestamp, duration and data (not the id) -/
def eqEv [DecidableEq D] (a b : Ev D) : Bool := a.ts = b.ts ∧ a.dur = b.dur ∧ a.data = b.data

end Aw.Event
