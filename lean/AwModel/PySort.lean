/-!
# Python's stable sort with a key

`sorted(l, key=k)` / `l.sort(key=k)` (and `sorted(l)` for objects whose `__lt__` compares one
integer attribute) is a stable sort that uses only `<` on the keys. It is modelled by the stable
insertion sort `sortBy`: an element is placed before the first already-placed element whose key
is not smaller, so elements with equal keys keep their input order.
-/
namespace Aw

/-- insert `x` in front of the first element whose key is `≥ key x` -/
def insertBy {α : Type} (key : α → Int) (x : α) : List α → List α
  | [] => [x]
  | y :: ys => if key x ≤ key y then x :: y :: ys else y :: insertBy key x ys

/-- stable insertion sort by an integer key -/
def sortBy {α : Type} (key : α → Int) : List α → List α
  | [] => []
  | x :: xs => insertBy key x (sortBy key xs)

end Aw
