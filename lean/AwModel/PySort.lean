/-!
# Python `sorted(xs, key=...)` / `list.sort(key=...)` with an integer key

Python's sort is stable: elements with equal keys keep their input order. The model is the
textbook stable insertion sort (`foldr` of an insertion that places the new — earlier — element in
front of the first element whose key is not smaller). Which sorting algorithm CPython uses is
irrelevant: a stable sort is determined by its input (`AwProofs/Lemmas/PySort.lean`:
permutation, sortedness, stability).
-/
namespace Aw.PySort
variable {α : Type}

/-- insert `x`, which precedes every element of the (sorted) list in input order, in front of the
    first element whose key is `≥ key x` -/
def insertBy (key : α → Int) (x : α) : List α → List α
  | [] => [x]
  | y :: ys => if key x ≤ key y then x :: y :: ys else y :: insertBy key x ys

/-- `sorted(l, key=key)` -/
def sortBy (key : α → Int) : List α → List α
  | [] => []
  | x :: xs => insertBy key x (sortBy key xs)

/-- `sorted(l, key=key, reverse=True)`: descending, equal keys in input order -/
def sortByDesc (key : α → Int) (l : List α) : List α := sortBy (fun a => - key a) l

end Aw.PySort

namespace Aw
export PySort (insertBy sortBy sortByDesc)
end Aw
