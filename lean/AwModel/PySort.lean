/-!
# `sorted(xs, key=…)` — a stable sort, modelled by a stable insertion sort

`sortBy key l` orders by the integer key, ascending; elements with equal keys keep their input
order (as Python's `sorted` / `list.sort` guarantee). `sorted(…, reverse=True)` also keeps equal
elements in input order, so it is `sortBy` with the negated key (`sortByDesc`).
-/
namespace Aw.PySort
variable {α : Type}

/-- insert `a` (which came *before* everything in `l` in the input) into the sorted list `l`:
    it goes in front of the first element whose key is not smaller -/
def insertBy (key : α → Int) (a : α) : List α → List α
  | [] => [a]
  | b :: r => if key a ≤ key b then a :: b :: r else b :: insertBy key a r

/-- stable insertion sort by an integer key, ascending -/
def sortBy (key : α → Int) : List α → List α
  | [] => []
  | a :: l => insertBy key a (sortBy key l)

/-- `sorted(l, key=key, reverse=True)`: descending, equal keys in input order -/
def sortByDesc (key : α → Int) (l : List α) : List α := sortBy (fun a => - key a) l

end Aw.PySort
