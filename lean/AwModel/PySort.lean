/-!
# Stable insertion sort: model of Python's `sorted(l, key=…)` (and of `ORDER BY` with a total tiebreak)
-/
namespace Aw

/-- insert `x` before the first element whose key is ≥ its key; used with `x` taken from the
    front of the input, this keeps equal keys in input order -/
def insertBy {α} (key : α → Int) (x : α) : List α → List α
  | [] => [x]
  | y :: ys => if key x ≤ key y then x :: y :: ys else y :: insertBy key x ys

/-- stable sort ascending by `key` -/
def sortBy {α} (key : α → Int) : List α → List α
  | [] => []
  | x :: xs => insertBy key x (sortBy key xs)

end Aw
