import Lean
/-!
Audit of one proof module: lists every theorem declared in the module with the axioms it depends
on (transitively), as one JSON object per line. Run as
  lake env lean --run ../tools/Audit.lean AwProofs.Props.C08
-/
open Lean

def jsonStr (s : String) : String := (Json.str s).compress

unsafe def main (args : List String) : IO UInt32 := do
  initSearchPath (← findSysroot)
  let some m := args.head? | do IO.eprintln "usage: Audit <module>"; return 2
  let modName := m.toName
  enableInitializersExecution
  let env ← importModules #[{module := modName}] {} (loadExts := true)
  let some idx := env.getModuleIdx? modName | do IO.eprintln "module not found"; return 2
  let mut n := 0
  for (name, info) in env.constants.map₁.toList do
    if env.getModuleIdxFor? name != some idx then continue
    match info with
    | .thmInfo ti =>
      if name.isInternal then continue
      let ctx : Core.Context := {fileName := "<audit>", fileMap := default}
      let cst : Core.State := {env}
      let (axArr, _) ← (collectAxioms name : CoreM (Array Name)).toIO ctx cst
      let axs := axArr.toList.map (fun a => jsonStr a.toString)
      let stmt ← try
          let (fmt, _) ← (Meta.MetaM.run' (Meta.ppExpr ti.type)).toIO ctx cst
          pure (toString fmt)
        catch _ => pure (toString ti.type)
      IO.println s!"\{\"theorem\": {jsonStr name.toString}, \"axioms\": [{String.intercalate ", " axs}], \"statement\": {jsonStr stmt}}"
      n := n + 1
    | _ => continue
  IO.println s!"\{\"module\": {jsonStr m}, \"theorems\": {n}}"
  return 0
