#!/venv/bin/python
"""Run the checks against a behaviour-preserving rewrite of /repo (a check must stay quiet on it).

  tools/eval_benign.py <source dir with patch.diff, meta.json> <id>

In a scratch worktree of /repo carrying the patch (removed afterwards): the pinned test-suite passes, then the
quick check of every property anchored in a touched file is run with VERIF_REPO pointing at the worktree.
Expected: every check exits 0 (it may escalate its search because the AST fingerprint moved).
The result is written to /verif/benign/<id>/ (patch.diff, meta.json).
"""
import json
import os
import shutil
import subprocess
import sys
import time

VERIF = os.path.dirname(os.path.dirname(os.path.abspath(__file__)))


def sh(cmd, cwd=None, timeout=3600, env=None):
    p = subprocess.run(cmd, shell=True, cwd=cwd, stdout=subprocess.PIPE, stderr=subprocess.STDOUT, timeout=timeout, env=env)
    return p.returncode, p.stdout.decode(errors="replace")


def props_anchored_in(files):
    out = []
    for line in open(os.path.join(VERIF, "properties.jsonl")):
        p = json.loads(line)
        if set(p["anchors"]["files"]) & set(files):
            out.append(p["id"])
    return out


def main():
    src, bid = sys.argv[1], sys.argv[2]
    meta = json.load(open(os.path.join(src, "meta.json")))
    patch = os.path.abspath(os.path.join(src, "patch.diff"))
    wt = f"/tmp/benrun_{bid}"
    sh(f"git -C /repo worktree remove --force {wt}")
    sh(f"git -C /repo worktree add {wt} HEAD")
    results, conf = {}, {}
    try:
        rc, out = sh(f"git apply {patch}", cwd=wt)
        conf["applies"] = rc == 0
        if rc == 0:
            rc, out = sh("git diff --name-only", cwd=wt)
            touched = [l for l in out.split("\n") if l.strip()]
            conf["touched"] = touched
            xdg = f"/tmp/benxdg_{bid}"
            shutil.rmtree(xdg, ignore_errors=True)
            os.makedirs(xdg)
            tenv = dict(os.environ, XDG_DATA_HOME=xdg + "/data", XDG_CONFIG_HOME=xdg + "/config", XDG_CACHE_HOME=xdg + "/cache")
            rc, out = sh("/venv/bin/python -m pytest -q -p no:cacheprovider --timeout=900 2>&1 | tail -3", cwd=wt, env=tenv)
            shutil.rmtree(xdg, ignore_errors=True)
            conf["tests"] = out.strip().split("\n")[-1]
            conf["tests_pass"] = " passed" in conf["tests"] and "failed" not in conf["tests"] and "error" not in conf["tests"]
            props = props_anchored_in(touched)
            if meta.get("property") and meta["property"] not in props:
                props.insert(0, meta["property"])
            ev = f"/tmp/benev_{bid}"
            env = dict(os.environ, VERIF_REPO=wt, VERIF_EVIDENCE_DIR=ev, VERIF_REPLAY_DIR=ev)
            for p in props:
                t0 = time.time()
                rc, out = sh(f"./check {p} --tier quick", cwd=VERIF, timeout=3600, env=env)
                lines = [l for l in out.split("\n") if l.startswith("VIOLATION") or l.startswith("note:") or " tier=" in l]
                what = None
                for l in lines:
                    if l.startswith("VIOLATION") and "replay=" in l:
                        rp = l.split("replay=")[1].split()[0]
                        try:
                            what = json.load(open(os.path.join(VERIF, rp))).get("what")
                            keep = os.path.join("/root/benign_alarms", bid)
                            os.makedirs(keep, exist_ok=True)
                            shutil.copy(os.path.join(VERIF, rp), keep)
                        except Exception:
                            pass
                results[p] = {"exit": rc, "lines": [l[:300] for l in lines], "what": (what or "")[:600],
                              "wall_s": round(time.time() - t0, 1)}
                if rc == 2:
                    results[p]["tail"] = out[-1500:]
            shutil.rmtree(ev, ignore_errors=True)
    finally:
        sh(f"git -C /repo worktree remove --force {wt}")
    dst = os.path.join(VERIF, "benign", bid)
    os.makedirs(dst, exist_ok=True)
    if os.path.abspath(patch) != os.path.abspath(os.path.join(dst, "patch.diff")):  # (re-evaluating a stored rewrite in place)
        shutil.copy(patch, os.path.join(dst, "patch.diff"))
    meta.update({"id": bid, "confirmation": conf, "checks": results,
                 "quiet": bool(results) and all(r["exit"] == 0 for r in results.values()),
                 "ran": "tools/eval_benign.py: pytest and the quick checks of every property anchored in a touched file, "
                        "against a scratch worktree of /repo carrying the patch (VERIF_REPO)"})
    json.dump(meta, open(os.path.join(dst, "meta.json"), "w"), indent=1)
    print(bid, conf.get("tests"), {p: (r["exit"], r["lines"][-1:]) for p, r in results.items()})


if __name__ == "__main__":
    main()
