#!/venv/bin/python
"""Confirm a seeded change and run the checks against it.

  tools/eval_seed.py <source dir with patch.diff, demo.py, meta.json> <seed id> [extra property ids …]

1. In a scratch worktree of /repo (removed afterwards): the patch applies, the pinned test-suite passes with it,
   demo.py exits 1 with it and 0 without it.
2. The patch is applied to /repo itself, the quick check of the property (and of the extra properties) is run,
   and the patch is undone straight afterwards (git -C /repo checkout -- .).
The result is written to /verif/seeded/<seed id>/ (patch.diff, demo.py, meta.json).
"""
import json
import os
import shutil
import subprocess
import sys
import time

VERIF = os.path.dirname(os.path.dirname(os.path.abspath(__file__)))


def sh(cmd, cwd=None, timeout=3600, env=None):
    p = subprocess.run(cmd, shell=True, cwd=cwd, stdout=subprocess.PIPE, stderr=subprocess.STDOUT, timeout=timeout, env=env)
    return p.returncode, p.stdout.decode(errors="replace")


def main():
    src, sid = sys.argv[1], sys.argv[2]
    extra = sys.argv[3:]
    meta = json.load(open(os.path.join(src, "meta.json")))
    prop = meta["property"]
    patch = os.path.abspath(os.path.join(src, "patch.diff"))
    demo = os.path.abspath(os.path.join(src, "demo.py"))
    wt = f"/tmp/evalwt_{sid}"
    sh(f"git -C /repo worktree remove --force {wt}")
    rc, out = sh(f"git -C /repo worktree add {wt} HEAD")
    conf = {}
    try:
        rc, out = sh(f"git apply {patch}", cwd=wt)
        conf["applies"] = rc == 0
        if rc != 0:
            conf["apply_error"] = out[-500:]
        else:
            xdg = f"/tmp/evalxdg_{sid}"
            shutil.rmtree(xdg, ignore_errors=True)
            os.makedirs(xdg)
            tenv = dict(os.environ, XDG_DATA_HOME=xdg + "/data", XDG_CONFIG_HOME=xdg + "/config", XDG_CACHE_HOME=xdg + "/cache")
            rc, out = sh("/venv/bin/python -m pytest -q -p no:cacheprovider --timeout=900 2>&1 | tail -3", cwd=wt, env=tenv)
            shutil.rmtree(xdg, ignore_errors=True)
            conf["tests"] = out.strip().split("\n")[-1]
            conf["tests_pass"] = " passed" in conf["tests"] and "failed" not in conf["tests"] and "error" not in conf["tests"]
            rc, out = sh(f"/venv/bin/python {demo}", cwd=wt, timeout=600)
            conf["demo_with_patch_rc"] = rc
            conf["demo_with_patch_out"] = out[-400:]
            sh("git checkout -- .", cwd=wt)
            rc, out = sh(f"/venv/bin/python {demo}", cwd=wt, timeout=600)
            conf["demo_without_patch_rc"] = rc
    finally:
        sh(f"git -C /repo worktree remove --force {wt}")
    confirmed = bool(conf.get("applies") and conf.get("tests_pass") and conf.get("demo_with_patch_rc") not in (0, None)
                     and conf.get("demo_without_patch_rc") == 0)
    results = {}
    in_wt = os.environ.get("EVAL_IN_WORKTREE") == "1"
    if confirmed:
        if in_wt:
            # while other work is using /repo: the same run against a scratch worktree carrying the patch
            target = f"/tmp/evalwt_{sid}_run"
            sh(f"git -C /repo worktree remove --force {target}")
            sh(f"git -C /repo worktree add {target} HEAD")
            rc, out = sh(f"git apply {patch}", cwd=target)
            assert rc == 0, out
            env = dict(os.environ, VERIF_REPO=target, VERIF_EVIDENCE_DIR=f"/tmp/evalev_{sid}", VERIF_REPLAY_DIR=f"/tmp/evalev_{sid}")
        else:
            rc, out = sh("git -C /repo status --porcelain")
            if out.strip():
                print("/repo is not clean, refusing to apply:", out)
                sys.exit(2)
            rc, out = sh(f"git -C /repo apply {patch}")
            assert rc == 0, out
            env = dict(os.environ, VERIF_EVIDENCE_DIR=f"/tmp/evalev_{sid}", VERIF_REPLAY_DIR=f"/tmp/evalev_{sid}")
        try:
            for p in [prop] + extra:
                t0 = time.time()
                rc, out = sh(f"./check {p} --tier quick", cwd=VERIF, timeout=3600, env=env)
                lines = [l for l in out.split("\n") if l.startswith("VIOLATION") or l.startswith("KNOWN-FINDING") or " tier=" in l]
                replay_what = None
                for l in lines:
                    if l.startswith("VIOLATION") and "replay=" in l:
                        rp = l.split("replay=")[1].split()[0]
                        try:
                            replay_what = json.load(open(os.path.join(VERIF, rp))).get("what")
                        except Exception:
                            pass
                results[p] = {"exit": rc, "lines": [l[:300] for l in lines], "what": (replay_what or "")[:400],
                              "wall_s": round(time.time() - t0, 1)}
                if rc not in (0, 1):
                    results[p]["tail"] = out[-1500:]
        finally:
            shutil.rmtree(f"/tmp/evalev_{sid}", ignore_errors=True)
            if in_wt:
                sh(f"git -C /repo worktree remove --force {target}")
            else:
                sh("git -C /repo checkout -- .")
                rc, out = sh("git -C /repo status --porcelain")
                assert not out.strip(), "could not restore /repo: " + out
    dst = os.path.join(VERIF, "seeded", sid)
    os.makedirs(dst, exist_ok=True)
    for f, name in ((patch, "patch.diff"), (demo, "demo.py")):
        if os.path.abspath(f) != os.path.abspath(os.path.join(dst, name)):  # (re-evaluating a stored change in place)
            shutil.copy(f, os.path.join(dst, name))
    meta.update({"seed_id": sid, "confirmed": confirmed, "confirmation": conf, "checks": results,
                 "detected": any(r["exit"] == 1 for r in results.values()),
                 "ran": "tools/eval_seed.py: pytest in a scratch worktree with the patch, demo.py with/without the patch, ./check " + prop + " --tier quick against " + ("a scratch worktree carrying the patch (VERIF_REPO)" if in_wt else "/repo with the patch applied (git -C /repo apply), undone afterwards (git -C /repo checkout -- .)")})
    json.dump(meta, open(os.path.join(dst, "meta.json"), "w"), indent=1)
    print(sid, "confirmed" if confirmed else "NOT CONFIRMED", {p: (r["exit"], r["lines"][-1:] ) for p, r in results.items()})
    if not confirmed:
        print(json.dumps(conf, indent=1)[:1500])


if __name__ == "__main__":
    main()
