#!/venv/bin/python
"""Record the AST fingerprints of every anchored source file of /repo (run after changing /repo)."""
import json
import os
import sys

VERIF = os.path.dirname(os.path.dirname(os.path.abspath(__file__)))
sys.path.insert(0, VERIF)
from harness import fingerprint  # noqa: E402

files = set()
for line in open(os.path.join(VERIF, "properties.jsonl")):
    files |= {f for f in json.loads(line)["anchors"]["files"] if f.endswith(".py")}
json.dump({f: fingerprint.file_fp(f) for f in sorted(files)}, open(fingerprint.PATH, "w"), indent=1)
print(len(files), "files")
