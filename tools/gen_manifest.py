#!/venv/bin/python
"""Regenerate MANIFEST.json from the property modules under harness/props (run from /verif)."""
import importlib
import json
import os
import sys

VERIF = os.path.dirname(os.path.dirname(os.path.abspath(__file__)))
sys.path.insert(0, VERIF)

props = [json.loads(l) for l in open(os.path.join(VERIF, "properties.jsonl"))]
checks, na = [], []
NA_REASONS = {}
for p in props:
    pid = p["id"]
    path = os.path.join(VERIF, "harness", "props", pid.lower() + ".py")
    if not os.path.exists(path):
        na.append({"property_id": pid, "reason": NA_REASONS.get(pid, "check not built yet in this tree (planned: Lean model + theorems + correspondence, DESIGN.md section 8)")})
        continue
    mod = importlib.import_module(f"harness.props.{pid.lower()}")
    P = mod.PROP
    if not P.THEOREMS:
        na.append({"property_id": pid, "reason": "correspondence check and oracle are built and run (./check " + pid + "), but the Lean property theorems are not merged into this tree yet, so no proof-level claim is made"})
        continue
    checks.append(
        {
            "property_id": pid,
            "quick_cmd": f"./check {pid} --tier quick",
            "thorough_cmd": f"./check {pid} --tier thorough",
            "evidence_file": f"evidence/{pid}.json",
            "replay_cmd_template": f"./check {pid} --replay {{path}}",
            "engine": "lean4-model+correspondence",
            "level_claimed": {
                "category": "proof",
                "text": P.LEVEL_TEXT,
                "design_ref": f"DESIGN.md section 8, {pid}",
            },
            "level_note": P.LEVEL_NOTE,
            "technique": P.TECHNIQUE,
        }
    )
man = {
    "version": 1,
    "setup_cmd": "./setup.sh",
    "hooks": {
        "guard": "AW_CORE_VERIF",
        "enable": "no source hooks are needed; checks import /repo's working tree in-process (AW_CORE_VERIF=1 is exported but nothing in the repository reads it)",
        "baseline_off_cmd": "cd /repo && env -u AW_CORE_VERIF /venv/bin/python -m pytest -ra -q -p no:cacheprovider --timeout=900 --continue-on-collection-errors",
        "source_commits": [],
        "add_only": True,
    },
    "engines": [
        {
            "name": "lean4-model+correspondence",
            "path": "lean/ (AwModel, AwProofs, Driver), harness/, tools/Audit.lean",
            "serves_properties": [c["property_id"] for c in checks],
            "kind_free_text": "Lean 4 theorems over a hand-written executable model; the compiled model driver and the real Python code are run on the same inputs on every check (correspondence), the property itself is evaluated on the real outputs (oracle)",
        }
    ],
    "checks": checks,
    "not_applicable": na,
    "notes": "Every check: source audit + lake build of the property's theorem module + axiom audit, then correspondence model-vs-code and a direct oracle on the real code. Exit 0 pass, 1 violation, 2 infrastructure failure. See DESIGN.md.",
}
# (the list is kept even when it is empty: every one of the 20 properties is claimed, see DESIGN.md section 10)
json.dump(man, open(os.path.join(VERIF, "MANIFEST.json"), "w"), indent=1)
print(f"{len(checks)} checks, {len(na)} not_applicable")
